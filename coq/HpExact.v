(* C14, exact layer: index/probability transforms and the linear integer lattice over Z and Q *)
From Coq Require Import ZArith QArith Qround Lia List.
Import ListNotations.
Open Scope Z_scope.

(* hp_utils.prob_to_index / index_to_prob with exact arithmetic *)
Definition prob_to_index (q : Q) (n : Z) : Z :=
  let i := Qfloor (q * inject_Z n) in if i =? n then n - 1 else i.
Definition index_to_prob (i n : Z) : Q := (inject_Z i + (1 # 2)) / inject_Z n.

Lemma Qfloor_bounds (x : Q) (a b : Z) : (inject_Z a <= x)%Q -> (x < inject_Z b)%Q -> a <= Qfloor x < b.
Proof.
  intros Ha Hb. split.
  - rewrite <- (Qfloor_Z a). now apply Qfloor_resp_le.
  - destruct (Z_lt_ge_dec (Qfloor x) b) as [H|H]; [exact H|exfalso].
    assert (Hle : (inject_Z b <= x)%Q).
    { apply Qle_trans with (inject_Z (Qfloor x)); [rewrite <- Zle_Qle; lia|apply Qfloor_le]. }
    apply (Qlt_irrefl x). eapply Qlt_le_trans; eauto.
Qed.

Theorem prob_to_index_range (q : Q) (n : Z) : 1 <= n -> (0 <= q)%Q -> (q < 1)%Q -> 0 <= prob_to_index q n < n.
Proof.
  intros Hn H0 H1. unfold prob_to_index. cbv zeta.
  assert (Hnq : (0 < inject_Z n)%Q) by (unfold inject_Z, Qlt; simpl; lia).
  assert (Hb : 0 <= Qfloor (q * inject_Z n) < n).
  { apply Qfloor_bounds.
    - change (inject_Z 0) with 0%Q. apply Qmult_le_0_compat; [exact H0|now apply Qlt_le_weak].
    - setoid_replace (inject_Z n) with (1 * inject_Z n)%Q at 2 by ring. now apply Qmult_lt_compat_r. }
  destruct (Z.eqb_spec (Qfloor (q * inject_Z n)) n); lia.
Qed.

Theorem index_roundtrip (i n : Z) : 0 <= i < n -> prob_to_index (index_to_prob i n) n = i.
Proof.
  intros Hi. unfold prob_to_index, index_to_prob. cbv zeta.
  assert (Hn0 : ~ (inject_Z n == 0)%Q). { unfold inject_Z, Qeq. simpl. lia. }
  assert (Heq : ((inject_Z i + (1 # 2)) / inject_Z n * inject_Z n == inject_Z i + (1 # 2))%Q) by (field; exact Hn0).
  assert (Hf : Qfloor (inject_Z i + (1 # 2)) = i).
  { assert (i <= Qfloor (inject_Z i + (1 # 2)) < i + 1); [|lia].
    apply Qfloor_bounds.
    - rewrite <- (Qplus_0_r (inject_Z i)) at 1. apply Qplus_le_r. discriminate.
    - rewrite inject_Z_plus. apply Qplus_lt_r. reflexivity. }
  rewrite !(Qfloor_comp _ _ Heq), !Hf. destruct (Z.eqb_spec i n); lia.
Qed.

(* Numerical with an integer step, linear sampling (Int): lattice min, min+step, ... not beyond max *)
Record ilat := { lo : Z; hi : Z; step : Z }.
Definition wf (l : ilat) := lo l <= hi l /\ 1 <= step l.
Definition n_values (l : ilat) : Z := (hi l - lo l) / step l + 1.
Definition value_at (l : ilat) (i : Z) : Z := lo l + i * step l.
Definition on_lattice (l : ilat) (v : Z) : Prop := exists i, 0 <= i < n_values l /\ v = value_at l i.
Definition prob_to_value (l : ilat) (q : Q) : Z := value_at l (prob_to_index q (n_values l)).
Definition value_to_index (l : ilat) (v : Z) : Z := (v - lo l) / step l.
Definition value_to_prob (l : ilat) (v : Z) : Q := index_to_prob (value_to_index l v) (n_values l).

Lemma n_values_pos l : wf l -> 1 <= n_values l.
Proof. intros [H1 H2]. unfold n_values. assert (0 <= (hi l - lo l) / step l) by (apply Z.div_pos; lia). lia. Qed.

Theorem lattice_in_range l v : wf l -> on_lattice l v -> lo l <= v <= hi l.
Proof.
  intros Hwf (i & [Hi0 Hi1] & ->). pose proof Hwf as [H1 H2]. unfold value_at, n_values in *.
  assert (i <= (hi l - lo l) / step l) by lia.
  assert (i * step l <= (hi l - lo l) / step l * step l) by (apply Z.mul_le_mono_nonneg_r; lia).
  assert ((hi l - lo l) / step l * step l <= hi l - lo l) by (rewrite Z.mul_comm; apply Z.mul_div_le; lia).
  nia.
Qed.

Theorem max_on_lattice_iff l : wf l -> (on_lattice l (hi l) <-> (step l | hi l - lo l)).
Proof.
  intros Hwf. pose proof Hwf as [H1 H2]. split.
  - intros (i & _ & Hv). unfold value_at in Hv. exists i. lia.
  - intros (k & Hk). exists k. unfold n_values, value_at. rewrite Hk, Z.div_mul by lia. split; [|lia].
    assert (0 <= k) by nia. lia.
Qed.

Theorem prob_to_value_on_lattice l q : wf l -> (0 <= q)%Q -> (q < 1)%Q -> on_lattice l (prob_to_value l q).
Proof.
  intros Hwf H0 H1. exists (prob_to_index q (n_values l)). split; [|reflexivity].
  apply prob_to_index_range; auto. now apply n_values_pos.
Qed.

Theorem value_roundtrip l v : wf l -> on_lattice l v -> prob_to_value l (value_to_prob l v) = v.
Proof.
  intros Hwf (i & Hi & ->). pose proof Hwf as [H1 H2]. unfold prob_to_value, value_to_prob, value_to_index, value_at.
  replace (lo l + i * step l - lo l) with (i * step l) by lia. rewrite Z.div_mul by lia.
  now rewrite index_roundtrip.
Qed.
Print Assumptions value_roundtrip.
