From Coq Require Import List ZArith Bool Lia PeanoNat.
Import ListNotations.
From KT Require Import Lifecycle LInv HB.

(* ---------- generic list facts ---------- *)
Lemma filter_length_le_impl {X} (p q : X -> bool) l : (forall x, In x l -> p x = true -> q x = true) ->
  length (filter p l) <= length (filter q l).
Proof.
  induction l as [|x r IH]; intros H; simpl; [lia|].
  assert (IH' : length (filter p r) <= length (filter q r)) by (apply IH; intros y Hy; apply H; now right).
  destruct (p x) eqn:Ep; [rewrite (H x (or_introl eq_refl) Ep); simpl; lia|]. destruct (q x); simpl; lia.
Qed.
Lemma filter_disjoint_length {X} (p q : X -> bool) l : (forall x, In x l -> p x = true -> q x = false) ->
  length (filter p l) + length (filter q l) <= length l.
Proof.
  induction l as [|x r IH]; intros H; simpl; [lia|].
  assert (IH' : length (filter p r) + length (filter q r) <= length r) by (apply IH; intros y Hy; apply H; now right).
  destruct (p x) eqn:Ep; [rewrite (H x (or_introl eq_refl) Ep); simpl; lia|]. destruct (q x); simpl; lia.
Qed.
Lemma filter_app_false {X} (p : X -> bool) l x : p x = false -> filter p (l ++ [x]) = filter p l.
Proof. intros H. rewrite filter_app. simpl. rewrite H. apply app_nil_r. Qed.
Lemma nth_upd_nth_same {X} n (f : X -> X) l : nth_error (upd_nth n f l) n = option_map f (nth_error l n).
Proof. revert n; induction l as [|x r IH]; intros [|n]; simpl; auto. Qed.
Lemma nth_upd_nth_other {X} n m (f : X -> X) l : n <> m -> nth_error (upd_nth n f l) m = nth_error l m.
Proof. revert n m; induction l as [|x r IH]; intros [|n] [|m] H; simpl; auto; congruence. Qed.
Lemma length_upd_nth {X} n (f : X -> X) l : length (upd_nth n f l) = length l.
Proof. revert n; induction l as [|x r IH]; intros [|n]; simpl; auto. Qed.
Lemma Forall_upd_nth {X} (P : X -> Prop) n f l : Forall P l -> (forall x, nth_error l n = Some x -> P (f x)) -> Forall P (upd_nth n f l).
Proof.
  revert n. induction l as [|x r IH]; intros n HF Hf; destruct n as [|n]; simpl; auto.
  - inversion HF; subst. constructor; [apply Hf; reflexivity|assumption].
  - inversion HF; subst. constructor; [assumption|]. apply IH; [assumption|]. intros y Hy. apply Hf. exact Hy.
Qed.

Section Inv.
Context {V : Type}.
Notation trial := (trial V Z).
Variable h : hcfg.
Hypothesis Hsize0 : forall b, 1 <= sizes h b 0.

Definition ids (l : list entry) : list nat := map e_id l.
Definition pasts (l : list entry) : list (option nat) := map e_past l.

Definition inG (ts : list trial) (q id : nat) : bool :=
  completed ts id && negb (better h (score_of ts id) (score_of ts q)).
Definition G (ts : list trial) (prev : list entry) (q : nat) : list nat := filter (inG ts q) (ids prev).
Definition beats (ts : list trial) (q id : nat) : bool :=
  completed ts id && better h (score_of ts id) (score_of ts q).

Record BOK (ts : list trial) (br : bracket) : Prop := {
  K_len : length (rounds br) = S (bnum br);
  K_cap : forall r l, nth_error (rounds br) r = Some l -> length l <= sizes h (bnum br) r;
  K_ids : forall r l id, nth_error (rounds br) r = Some l -> In id (ids l) -> id < length ts;
  K_nd : forall r l, nth_error (rounds br) r = Some l -> NoDup (ids l);
  K_pnd : forall r l, nth_error (rounds br) (S r) = Some l -> NoDup (pasts l);
  K_prom : forall r prev cur e, nth_error (rounds br) r = Some prev -> nth_error (rounds br) (S r) = Some cur -> In e cur ->
      exists q, e_past e = Some q /\ In q (ids prev) /\ completed ts q = true /\
                sizes h (bnum br) r < length (G ts prev q) + sizes h (bnum br) (S r)
}.

(* C10 (H3), counting clause: fewer trials of the previous round beat the parent than the next round has places *)
Theorem promoted_is_winner ts br r prev cur e q : BOK ts br ->
  nth_error (rounds br) r = Some prev -> nth_error (rounds br) (S r) = Some cur -> In e cur -> e_past e = Some q ->
  length (filter (beats ts q) (ids prev)) < sizes h (bnum br) (S r).
Proof.
  intros HB Hp Hc He Hq. destruct (K_prom _ _ HB r prev cur e Hp Hc He) as (q' & Hq' & Hin & Hcomp & Hlt).
  rewrite Hq in Hq'. inversion Hq'; subst q'.
  pose proof (K_cap _ _ HB r prev Hp) as Hcap.
  assert (Hdis : length (filter (beats ts q) (ids prev)) + length (G ts prev q) <= length (ids prev)).
  { apply filter_disjoint_length. intros x _ Hx. unfold beats, inG in *. apply andb_prop in Hx as [-> Hb]. rewrite Hb. reflexivity. }
  assert (Hl : length (ids prev) = length prev) by (unfold ids; apply map_length). lia.
Qed.

(* trials evolve monotonically: a COMPLETED trial keeps its score *)
Definition tle (ts ts' : list trial) : Prop :=
  length ts <= length ts' /\ forall id z, cview ts id = Some z -> cview ts' id = Some z.

Lemma tle_refl ts : tle ts ts. Proof. split; auto. Qed.

Lemma completed_mono ts ts' id : tle ts ts' -> completed ts id = true -> completed ts' id = true.
Proof. intros [_ H] Hc. unfold completed in *. destruct (cview ts id) eqn:E; [|discriminate]. now rewrite (H _ _ E). Qed.
Lemma score_mono ts ts' id : tle ts ts' -> completed ts id = true -> score_of ts' id = score_of ts id.
Proof. intros [_ H] Hc. unfold completed, score_of in *. destruct (cview ts id) eqn:E; [|discriminate]. now rewrite (H _ _ E). Qed.

Lemma BOK_mono ts ts' br : tle ts ts' -> BOK ts br -> BOK ts' br.
Proof.
  intros Hle [H1 H2 H3 H4 H5 H6]. constructor; auto.
  - intros r l id Hl Hin. destruct Hle as [Hlen _]. specialize (H3 r l id Hl Hin). lia.
  - intros r prev cur e Hp Hc He. destruct (H6 r prev cur e Hp Hc He) as (q & Hq & Hin & Hcomp & Hlt).
    exists q. repeat split; auto; [eapply completed_mono; eauto|].
    assert (length (G ts prev q) <= length (G ts' prev q)); [|lia].
    apply filter_length_le_impl. intros x _ Hx. unfold inG in *. apply andb_prop in Hx as [Hcx Hb].
    rewrite (completed_mono _ _ _ Hle Hcx). rewrite (score_mono _ _ _ Hle Hcx), (score_mono _ _ _ Hle Hcomp). exact Hb.
Qed.

(* ---------- what the scan returns ---------- *)
Lemma best_of_spec (ts : list trial) cands cur q : best_of h ts cands cur = Some q ->
  (In q cands \/ cur = Some q) /\
  (forall c, In c cands \/ cur = Some c -> better h (score_of ts c) (score_of ts q) = false).
Proof.
  revert cur. induction cands as [|c r IH]; intros cur Hb; simpl in Hb.
  - subst cur. split; [now right|]. intros c [[]|[= ->]]. unfold better. destruct (maximize h); apply Z.ltb_irrefl.
  - destruct (IH _ Hb) as [Hin Hall]. split.
    + destruct Hin as [Hin|Hin]; [left; now right|].
      destruct cur as [b|]; [|inversion Hin; subst; left; now left].
      destruct (better h (score_of ts c) (score_of ts b)); inversion Hin; subst; [left; now left|now right].
    + intros x [[->|Hx]|Hx].
      * destruct cur as [b|]; [|apply Hall; now right].
        destruct (better h (score_of ts x) (score_of ts b)) eqn:Eb; [apply Hall; now right|].
        (* x not better than b, b not better than q *)
        assert (Hbq : better h (score_of ts b) (score_of ts q) = false) by (apply Hall; now right).
        unfold better in *. destruct (maximize h); rewrite Z.ltb_ge in *; lia.
      * apply Hall. now left.
      * subst cur. destruct (better h (score_of ts c) (score_of ts x)) eqn:Eb.
        -- assert (Hcq : better h (score_of ts c) (score_of ts q) = false) by (apply Hall; now right).
           unfold better in *. destruct (maximize h); rewrite ?Z.ltb_ge, ?Z.ltb_lt in *; lia.
        -- apply Hall. now right.
Qed.

Lemma try_rounds_spec (ts : list trial) b rs : forall prev0 r0 r q, try_rounds h ts b prev0 rs r0 = Some (r, q) ->
  exists k prev cur, r = r0 + k /\ nth_error (prev0 :: rs) k = Some prev /\ nth_error (prev0 :: rs) (S k) = Some cur /\
    sizes h b (r - 1) - sizes h b r < length (candidates ts prev cur) /\
    In q (candidates ts prev cur) /\
    (forall c, In c (candidates ts prev cur) -> better h (score_of ts c) (score_of ts q) = false).
Proof.
  induction rs as [|cur rest IH]; intros prev0 r0 r q H; simpl in H; [discriminate|].
  destruct (Nat.ltb_spec (sizes h b (r0 - 1) - sizes h b r0) (length (candidates ts prev0 cur))) as [Hlt|Hge].
  - destruct (best_of h ts (candidates ts prev0 cur) None) as [q'|] eqn:Eb; [|discriminate]. inversion H; subst.
    destruct (best_of_spec _ _ _ _ Eb) as [[Hin|Hin] Hall]; [|discriminate].
    exists 0, prev0, cur. rewrite Nat.add_0_r. split; [reflexivity|]. split; [reflexivity|]. split; [reflexivity|].
    split; [exact Hlt|]. split; [exact Hin|]. intros c Hc. apply Hall. now left.
  - destruct (IH cur (S r0) r q H) as (k & prev & cur' & -> & Hp & Hc & Hrest).
    exists (S k), prev, cur'. split; [lia|]. split; [exact Hp|]. split; [exact Hc|]. exact Hrest.
Qed.

Inductive scan_res (ts : list trial) (brs : list bracket) : choice -> Prop :=
| SR_random bi br r0 rs : nth_error brs bi = Some br -> rounds br = r0 :: rs -> length r0 < sizes h (bnum br) 0 ->
    scan_res ts brs (CRandom bi)
| SR_promote bi br r q prev cur : nth_error brs bi = Some br -> 1 <= r ->
    nth_error (rounds br) (r - 1) = Some prev -> nth_error (rounds br) r = Some cur ->
    sizes h (bnum br) (r - 1) - sizes h (bnum br) r < length (candidates ts prev cur) ->
    In q (candidates ts prev cur) ->
    (forall c, In c (candidates ts prev cur) -> better h (score_of ts c) (score_of ts q) = false) ->
    scan_res ts brs (CPromote bi r q)
| SR_none : scan_res ts brs CNone.

Lemma scan_spec (ts : list trial) brs : forall pre, scan_res ts (pre ++ brs) (scan h ts brs (length pre)).
Proof.
  induction brs as [|br rest IH]; intros pre; simpl; [constructor|].
  assert (Hnth : nth_error (pre ++ br :: rest) (length pre) = Some br).
  { rewrite nth_error_app2 by lia. now rewrite Nat.sub_diag. }
  assert (Hnext : scan_res ts (pre ++ br :: rest) (scan h ts rest (S (length pre)))).
  { specialize (IH (pre ++ [br])). rewrite <- app_assoc in IH. simpl in IH. rewrite app_length in IH. simpl in IH.
    now rewrite Nat.add_1_r in IH. }
  destruct (rounds br) as [|r0 rs] eqn:Er; [exact Hnext|].
  destruct (Nat.ltb_spec (length r0) (sizes h (bnum br) 0)) as [Hlt|Hge].
  - eapply SR_random; eauto.
  - destruct (try_rounds h ts (bnum br) r0 rs 1) as [[r q]|] eqn:Et; [|exact Hnext].
    destruct (try_rounds_spec _ _ _ _ _ _ _ Et) as (k & prev & cur & -> & Hp & Hc & Hlt & Hin & Hall).
    eapply SR_promote with (prev := prev) (cur := cur); eauto; try lia.
    + rewrite Er. replace (1 + k - 1) with k by lia. exact Hp.
    + rewrite Er. exact Hc.
Qed.

(* ---------- adding entries ---------- *)
Definition fresh (br : bracket) (id : nat) : Prop := forall r l, nth_error (rounds br) r = Some l -> ~ In id (ids l).

Lemma G_snoc ts prev e q : completed ts (e_id e) = false -> G ts (prev ++ [e]) q = G ts prev q.
Proof.
  intros Hc. unfold G, ids. rewrite map_app. simpl. apply filter_app_false. unfold inG. now rewrite Hc.
Qed.

Lemma nth_upd_round r (e : entry) rs k :
  nth_error (upd_nth r (fun l => l ++ [e]) rs) k =
  if Nat.eqb r k then option_map (fun l => l ++ [e]) (nth_error rs k) else nth_error rs k.
Proof.
  destruct (Nat.eqb_spec r k) as [->|Hne]; [apply nth_upd_nth_same|now apply nth_upd_nth_other].
Qed.

Lemma BOK_add_round (ts : list trial) br r e :
  BOK ts br -> fresh br (e_id e) -> e_id e < length ts -> completed ts (e_id e) = false ->
  (* capacity and, for r >= 1, the promotion facts of the new entry *)
  (forall l, nth_error (rounds br) r = Some l -> length l < sizes h (bnum br) r) ->
  (match r with
   | O => True
   | S r' => forall prev cur, nth_error (rounds br) r' = Some prev -> nth_error (rounds br) r = Some cur ->
        exists q, e_past e = Some q /\ ~ In (Some q) (pasts cur) /\ In q (ids prev) /\ completed ts q = true /\
                  sizes h (bnum br) r' < length (G ts prev q) + sizes h (bnum br) r
   end) ->
  BOK ts (add_entry r e br).
Proof.
  intros [H1 H2 H3 H4 H5 H6] Hfr Hid Hnc Hcap Hnew.
  constructor; cbn [rounds bnum add_entry].
  - now rewrite length_upd_nth.
  - intros k l Hl. rewrite nth_upd_round in Hl. destruct (Nat.eqb_spec r k) as [->|Hne]; [|eauto].
    destruct (nth_error (rounds br) k) as [l0|] eqn:E; [|discriminate]. simpl in Hl. inversion Hl; subst.
    rewrite app_length. simpl. specialize (Hcap l0 eq_refl). lia.
  - intros k l id Hl Hin. rewrite nth_upd_round in Hl. destruct (Nat.eqb_spec r k) as [->|Hne]; [|eauto].
    destruct (nth_error (rounds br) k) as [l0|] eqn:E; [|discriminate]. simpl in Hl. inversion Hl; subst.
    unfold ids in Hin. rewrite map_app in Hin. apply in_app_or in Hin as [Hin|[<-|[]]]; [eapply H3; eauto|exact Hid].
  - intros k l Hl. rewrite nth_upd_round in Hl. destruct (Nat.eqb_spec r k) as [->|Hne]; [|eauto].
    destruct (nth_error (rounds br) k) as [l0|] eqn:E; [|discriminate]. simpl in Hl. inversion Hl; subst.
    unfold ids. rewrite map_app. simpl.
    assert (Hnd : NoDup (ids l0)) by eauto. assert (Hni : ~ In (e_id e) (ids l0)) by (eapply Hfr; eauto).
    now apply NoDup_app_snoc.
  - intros k l Hl. rewrite nth_upd_round in Hl. destruct (Nat.eqb_spec r (S k)) as [->|Hne]; [|eauto].
    destruct (nth_error (rounds br) (S k)) as [l0|] eqn:E; [|discriminate]. simpl in Hl. inversion Hl; subst.
    destruct (nth_error (rounds br) k) as [prev|] eqn:Ep.
    2:{ apply nth_error_None in Ep. assert (S k < length (rounds br)) by (apply nth_error_Some; congruence). lia. }
    destruct (Hnew prev l0 eq_refl eq_refl) as (q & Hq & Hnot & _).
    unfold pasts. rewrite map_app. simpl. rewrite Hq.
    assert (Hnd : NoDup (pasts l0)) by eauto.
    now apply NoDup_app_snoc.
  - intros k prev cur e' Hp Hc He'. rewrite nth_upd_round in Hp, Hc.
    destruct (Nat.eqb_spec r k) as [->|Hnk].
    + (* the previous round gained the new entry: G unchanged *)
      destruct (Nat.eqb_spec k (S k)) as [Habs|_]; [lia|].
      destruct (nth_error (rounds br) k) as [p0|] eqn:Ep; [|discriminate]. simpl in Hp. inversion Hp; subst prev.
      destruct (H6 k p0 cur e' Ep Hc He') as (q & Hq & Hin & Hcomp & Hlt).
      exists q. repeat split; auto.
      * unfold ids. rewrite map_app. apply in_or_app. now left.
      * rewrite G_snoc by exact Hnc. exact Hlt.
    + destruct (Nat.eqb_spec r (S k)) as [->|Hnk'].
      * (* the current round gained the new entry *)
        destruct (nth_error (rounds br) (S k)) as [c0|] eqn:Ec; [|discriminate]. simpl in Hc. inversion Hc; subst cur.
        apply in_app_or in He' as [He'|[<-|[]]]; [eapply H6; eauto|].
        destruct (Hnew prev c0 Hp eq_refl) as (q & Hq & _ & Hin & Hcomp & Hlt). exists q. auto.
      * eapply H6; eauto.
Qed.

Lemma BOK_new (ts : list trial) cb id : id < length ts -> BOK ts (add_entry 0 {| e_past := None; e_id := id |} (new_bracket cb)).
Proof.
  intros Hid. unfold add_entry, new_bracket. simpl.
  assert (Hrep : forall k l, nth_error (repeat (@nil entry) cb) k = Some l -> l = []).
  { intros k l Hl. apply nth_error_In in Hl. now apply repeat_spec in Hl. }
  constructor; simpl.
  - now rewrite repeat_length.
  - intros [|k] l Hl; simpl in Hl.
    + inversion Hl; subst. simpl. apply Hsize0.
    + rewrite (Hrep _ _ Hl). simpl. lia.
  - intros [|k] l i Hl Hin; simpl in Hl.
    + inversion Hl; subst. simpl in Hin. destruct Hin as [<-|[]]. exact Hid.
    + rewrite (Hrep _ _ Hl) in Hin. destruct Hin.
  - intros [|k] l Hl; simpl in Hl.
    + inversion Hl; subst. simpl. constructor; [tauto|constructor].
    + rewrite (Hrep _ _ Hl). constructor.
  - intros k l Hl. simpl in Hl. rewrite (Hrep _ _ Hl). constructor.
  - intros k prev cur e Hp Hc He. simpl in Hc. rewrite (Hrep _ _ Hc) in He. destruct He.
Qed.

(* ---------- the capacity of a round is respected by the promotion rule ---------- *)
Definition pq (l : list entry) : list nat := flat_map (fun e => match e_past e with Some q => [q] | None => [] end) l.

Lemma pq_length l : (forall e, In e l -> exists q, e_past e = Some q) -> length (pq l) = length l /\ map Some (pq l) = pasts l.
Proof.
  induction l as [|e r IH]; intros H; simpl; [auto|].
  destruct (H e (or_introl eq_refl)) as (q & Hq). rewrite Hq. simpl.
  destruct IH as [I1 I2]; [intros e' He'; apply H; now right|]. split; [lia|]. now rewrite I2.
Qed.

Lemma selected_spec cur q : selected cur q = true <-> In (Some q) (pasts cur).
Proof.
  unfold selected, pasts. rewrite existsb_exists. split.
  - intros (e & He & Hq). destruct (e_past e) as [p|] eqn:Ep; [|discriminate]. apply Nat.eqb_eq in Hq. subst.
    apply in_map_iff. exists e. auto.
  - intros Hin. apply in_map_iff in Hin as (e & Hq & He). exists e. split; [exact He|]. rewrite Hq. apply Nat.eqb_refl.
Qed.

Lemma round_has_room (ts : list trial) br r prev cur : BOK ts br ->
  nth_error (rounds br) r = Some prev -> nth_error (rounds br) (S r) = Some cur ->
  sizes h (bnum br) r - sizes h (bnum br) (S r) < length (candidates ts prev cur) ->
  length cur < sizes h (bnum br) (S r).
Proof.
  intros HB Hp Hc Hlt.
  assert (Hall : forall e, In e cur -> exists q, e_past e = Some q).
  { intros e He. destruct (K_prom _ _ HB r prev cur e Hp Hc He) as (q & Hq & _). eauto. }
  destruct (pq_length cur Hall) as [Hlen Hmap].
  set (sel := filter (selected cur) (ids prev)).
  assert (Hnd : NoDup (pq cur)).
  { pose proof (K_pnd _ _ HB r cur Hc) as H. rewrite <- Hmap in H. now apply NoDup_map_inv in H. }
  assert (Hincl : incl (pq cur) sel).
  { intros q Hq. unfold sel. apply filter_In.
    assert (Hs : In (Some q) (pasts cur)) by (rewrite <- Hmap; now apply in_map).
    split; [|now apply selected_spec].
    apply in_map_iff in Hs as (e & He1 & He2). destruct (K_prom _ _ HB r prev cur e Hp Hc He2) as (q' & Hq' & Hin & _).
    rewrite He1 in Hq'. now inversion Hq'; subst. }
  pose proof (NoDup_incl_length Hnd Hincl) as Hle.
  assert (Hdis : length sel + length (candidates ts prev cur) <= length (ids prev)).
  { apply filter_disjoint_length. intros x _ Hx. now rewrite Hx. }
  pose proof (K_cap _ _ HB r prev Hp) as Hcap.
  assert (Hl : length (ids prev) = length prev) by (unfold ids; apply map_length). lia.
Qed.

Lemma cands_in_G (ts : list trial) prev cur q :
  (forall c, In c (candidates ts prev cur) -> better h (score_of ts c) (score_of ts q) = false) ->
  length (candidates ts prev cur) <= length (G ts prev q).
Proof.
  intros Hall. unfold candidates, G. apply filter_length_le_impl. intros x Hx Hp.
  assert (Hin : In x (candidates ts prev cur)) by (unfold candidates; apply filter_In; auto).
  apply andb_prop in Hp as [_ Hc]. unfold inG. rewrite Hc. simpl. now rewrite (Hall x Hin).
Qed.

(* ---------- populate_space preserves the bracket invariant ---------- *)
Definition HInv (ts : list trial) (s : hstate) : Prop := Forall (BOK ts) (brackets s ++ archive s).

Lemma Forall_filter_split {X} (P : X -> Prop) (p : X -> bool) l a :
  Forall P (l ++ a) -> Forall P (filter p l ++ (a ++ filter (fun x => negb (p x)) l)).
Proof.
  intros H. apply Forall_app in H as [Hl Ha]. apply Forall_app. split; [|apply Forall_app; split; [exact Ha|]].
  - apply Forall_forall. intros x Hx. apply filter_In in Hx as [Hx _]. rewrite Forall_forall in Hl. now apply Hl.
  - apply Forall_forall. intros x Hx. apply filter_In in Hx as [Hx _]. rewrite Forall_forall in Hl. now apply Hl.
Qed.

Lemma Forall_upd_app {X} (P : X -> Prop) n f (l a : list X) :
  Forall P (l ++ a) -> (forall x, nth_error l n = Some x -> P x -> P (f x)) -> Forall P (upd_nth n f l ++ a).
Proof.
  intros H Hf. apply Forall_app in H as [Hl Ha]. apply Forall_app. split; [|exact Ha].
  apply Forall_upd_nth; [exact Hl|]. intros x Hx. apply Hf; [exact Hx|]. rewrite Forall_forall in Hl. apply Hl. eapply nth_error_In; eauto.
Qed.

Theorem hpopulate_inv (mk : hinfo -> V) (vdef : V) (s : hstate) (ts : list trial) (og : bool) (t : trial) :
  HInv ts s -> t_status t = RUNNING ->
  let '(s', st, v) := hpopulate h mk vdef s ts og (length ts) in
  match st with RUNNING => HInv (ts ++ [t]) s' | _ => HInv ts s' end.
Proof.
  intros HI Ht. unfold hpopulate.
  set (brs := filter (incomplete h) (brackets s)).
  set (arch := archive s ++ filter (fun b => negb (incomplete h b)) (brackets s)).
  assert (H0 : Forall (BOK ts) (brs ++ arch)) by (apply Forall_filter_split; exact HI).
  set (ts' := ts ++ [t]).
  assert (Hle : tle ts ts').
  { split; [unfold ts'; rewrite app_length; lia|]. intros id z Hc. unfold cview in *.
    destruct (nth_error ts id) eqn:E; [|discriminate]. unfold ts'. rewrite nth_error_app1; [now rewrite E|].
    apply nth_error_Some. congruence. }
  assert (H1 : Forall (BOK ts') (brs ++ arch)).
  { eapply Forall_impl; [|exact H0]. intros br. now apply BOK_mono. }
  assert (Hidn : length ts < length ts') by (unfold ts'; rewrite app_length; simpl; lia).
  assert (Hnc : completed ts' (length ts) = false).
  { unfold completed, cview, ts'. rewrite nth_error_app2 by lia. rewrite Nat.sub_diag. simpl. now rewrite Ht. }
  assert (Hfresh : forall br, In br brs -> fresh br (length ts)).
  { intros br Hbr r l Hl Hin. assert (HB : BOK ts br). { eapply Forall_forall; [exact H0|]. apply in_or_app. now left. }
    pose proof (K_ids _ _ HB r l _ Hl Hin). lia. }
  pose proof (scan_spec ts brs []) as Hsc. simpl in Hsc.
  destruct (scan h ts brs 0) as [bi|bi r q|] eqn:Es.
  - (* a fresh configuration for round 0 *)
    inversion Hsc as [bi' br r0 rs Hnth Hr Hlt| |]; subst. unfold HInv. simpl.
    apply Forall_upd_app; [exact H1|]. intros x Hx HB. rewrite Hnth in Hx. inversion Hx; subst x.
    apply BOK_add_round; cbn [e_id e_past]; auto.
    + apply Hfresh. eapply nth_error_In; eauto.
    + intros l Hl. rewrite Hr in Hl. simpl in Hl. inversion Hl; subst. exact Hlt.
  - (* a promotion *)
    inversion Hsc as [|bi' br r' q' prev cur Hnth Hr1 Hp Hc Hlt Hin Hall|]; subst. unfold HInv. simpl.
    apply Forall_upd_app; [exact H1|]. intros x Hx HB'. rewrite Hnth in Hx. inversion Hx; subst x.
    assert (HB : BOK ts br). { eapply Forall_forall; [exact H0|]. apply in_or_app. left. eapply nth_error_In; eauto. }
    destruct r as [|r0]; [lia|]. replace (S r0 - 1) with r0 in * by lia.
    apply filter_In in Hin as Hin'. destruct Hin' as [Hqp Hqc]. apply andb_prop in Hqc as [Hsel Hcomp].
    apply BOK_add_round; cbn [e_id e_past]; auto.
    + apply Hfresh. eapply nth_error_In; eauto.
    + intros l Hl. rewrite Hc in Hl. inversion Hl; subst l. eapply round_has_room; eauto.
    + intros prev0 cur0 Hp0 Hc0. rewrite Hp in Hp0. rewrite Hc in Hc0. inversion Hp0; inversion Hc0; subst prev0 cur0.
      exists q. repeat split; auto.
      * intros Hs. apply selected_spec in Hs. rewrite Hs in Hsel. discriminate.
      * eapply completed_mono; eauto.
      * pose proof (cands_in_G ts prev cur q Hall) as HG.
        assert (length (G ts prev q) <= length (G ts' prev q)); [|lia].
        apply filter_length_le_impl. intros y _ Hy. unfold inG in *. apply andb_prop in Hy as [Hcx Hb].
        rewrite (completed_mono _ _ _ Hle Hcx). rewrite (score_mono _ _ _ Hle Hcx), (score_mono _ _ _ Hle Hcomp). exact Hb.
  - (* nothing to fill: stop / wait, or open the next bracket *)
    destruct (Nat.eqb (cur_bracket s) 0 && match iterations h with Some n => Nat.eqb (S (cur_iter s)) n | None => false end).
    + destruct og; unfold HInv; simpl; exact H0.
    + destruct (cur_bracket s) as [|k]; unfold HInv; simpl; rewrite <- app_assoc; simpl.
      * apply Forall_app in H1 as [Ha Hb]. apply Forall_app. split; [exact Ha|]. constructor; [|exact Hb]. now apply BOK_new.
      * apply Forall_app in H1 as [Ha Hb]. apply Forall_app. split; [exact Ha|]. constructor; [|exact Hb]. now apply BOK_new.
Qed.

Corollary hpopulate_inv' (mk : hinfo -> V) (vdef : V) (s : hstate) (ts : list trial) (og : bool) :
  HInv ts s ->
  let '(s', st, v) := hpopulate h mk vdef s ts og (length ts) in
  match st with RUNNING => forall t, t_status t = RUNNING -> HInv (ts ++ [t]) s' | _ => HInv ts s' end.
Proof.
  intros HI. destruct (hpopulate h mk vdef s ts og (length ts)) as [[s' st] v] eqn:E.
  destruct st.
  - intros t Ht. pose proof (hpopulate_inv mk vdef s ts og t HI Ht) as H. now rewrite E in H.
  - pose proof (hpopulate_inv mk vdef s ts og {| t_status := RUNNING; t_score := None; t_runs := 0; t_data := vdef |} HI eq_refl) as H. now rewrite E in H.
  - pose proof (hpopulate_inv mk vdef s ts og {| t_status := RUNNING; t_score := None; t_runs := 0; t_data := vdef |} HI eq_refl) as H. now rewrite E in H.
  - pose proof (hpopulate_inv mk vdef s ts og {| t_status := RUNNING; t_score := None; t_runs := 0; t_data := vdef |} HI eq_refl) as H. now rewrite E in H.
  - pose proof (hpopulate_inv mk vdef s ts og {| t_status := RUNNING; t_score := None; t_runs := 0; t_data := vdef |} HI eq_refl) as H. now rewrite E in H.
  - pose proof (hpopulate_inv mk vdef s ts og {| t_status := RUNNING; t_score := None; t_runs := 0; t_data := vdef |} HI eq_refl) as H. now rewrite E in H.
Qed.
End Inv.
Print Assumptions hpopulate_inv.
Print Assumptions promoted_is_winner.
