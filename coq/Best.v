(* C04: Oracle.get_best_trials over an abstract trial type.
   sorted(trials, key=score, reverse=(direction == "max")) is the stable sort by the direction's order; it is modelled as
   insertion sort (fold_right) where an element goes in front of the first element that is not strictly better than it. *)
From Coq Require Import List ZArith QArith Bool Lia Sorting.Sorted Sorting.Permutation.
Import ListNotations.
From KT Require Import Metrics MetricsProofs.
Local Close Scope Q_scope.

Lemma nth_error_firstn_some {X} n (l : list X) i x : nth_error (firstn n l) i = Some x -> nth_error l i = Some x /\ i < n.
Proof.
  revert n i. induction l as [|a r IH]; intros n i H; destruct n, i; simpl in *; try discriminate.
  - split; [assumption|lia].
  - destruct (IH _ _ H). split; [assumption|lia].
Qed.
Lemma nth_error_firstn_lt {X} n (l : list X) i : i < n -> nth_error (firstn n l) i = nth_error l i.
Proof.
  revert n i. induction l as [|a r IH]; intros n i H; destruct n, i; simpl in *; try lia; auto. apply IH. lia.
Qed.

Section Best.
Context {T : Type}.
Variable completed : T -> bool.
Variable score : T -> fv.

Definition before (mx : bool) (x y : T) : bool := better_than mx (score x) (score y).   (* x strictly better than y *)

Fixpoint insert (mx : bool) (x : T) (l : list T) : list T :=
  match l with
  | [] => [x]
  | y :: r => if before mx y x then y :: insert mx x r else x :: l
  end.
Definition sort (mx : bool) (l : list T) : list T := fold_right (insert mx) [] l.

Definition best_trials (mx : bool) (n : nat) (ts : list T) : list T :=
  let sorted := sort mx (filter completed ts) in
  firstn n (if Nat.ltb (length sorted) n then sorted ++ filter (fun t => negb (completed t)) ts else sorted).

(* ---- permutation / length ------------------------------------------------------------------- *)
Lemma insert_perm mx x l : Permutation (insert mx x l) (x :: l).
Proof.
  induction l as [|y r IH]; simpl; [reflexivity|].
  destruct (before mx y x); [|reflexivity]. rewrite IH. apply perm_swap.
Qed.
Lemma sort_perm mx l : Permutation (sort mx l) l.
Proof. induction l as [|x r IH]; simpl; [constructor|]. rewrite insert_perm. now constructor. Qed.
Lemma sort_length mx l : length (sort mx l) = length l.
Proof. apply Permutation_length, sort_perm. Qed.
Lemma sort_in mx l x : In x (sort mx l) <-> In x l.
Proof. split; apply Permutation_in; [apply sort_perm|symmetry; apply sort_perm]. Qed.

(* ---- sortedness (scores not NaN) -------------------------------------------------------------- *)
Definition ok (t : T) : Prop := nonnan (score t).
Definition ord (mx : bool) (x y : T) : Prop := before mx y x = false.     (* y is not strictly better than x *)

Lemma insert_sorted mx x l : ok x -> Forall ok l -> Sorted (ord mx) l -> Sorted (ord mx) (insert mx x l).
Proof.
  intros Hx Hl Hs. induction l as [|y r IH]; simpl; [repeat constructor|].
  inversion Hl as [|? ? Hy Hr]; subst. inversion Hs as [|? ? Hs' Hh]; subst.
  destruct (before mx y x) eqn:E.
  - constructor; [apply IH; assumption|].
    destruct r as [|z r']; simpl; [constructor; unfold ord, before in *|].
    + apply better_than_asym; assumption.
    + destruct (before mx z x) eqn:E2; constructor.
      * inversion Hh; assumption.
      * unfold ord, before in *. apply better_than_asym; assumption.
  - constructor; [assumption|]. constructor. exact E.
Qed.
Lemma sort_ok mx l : Forall ok l -> Forall ok (sort mx l).
Proof. intros H. rewrite Forall_forall in *. intros x Hx. apply H. now apply sort_in in Hx. Qed.
Theorem sort_sorted mx l : Forall ok l -> Sorted (ord mx) (sort mx l).
Proof.
  induction l as [|x r IH]; intros H; simpl; [constructor|].
  inversion H; subst. apply insert_sorted; auto. now apply sort_ok.
Qed.

(* ord is transitive on non-NaN scores, so Sorted gives StronglySorted *)
Lemma ord_trans mx x y z : ok x -> ok y -> ok z -> ord mx x y -> ord mx y z -> ord mx x z.
Proof.
  unfold ord, before, ok. intros Hx Hy Hz H1 H2.
  destruct (better_than mx (score z) (score x)) eqn:E; [|reflexivity].
  (* z > x and not y > x  =>  z > y, contradiction *)
  pose proof (better_than_nt mx (score z) (score x) (score y) Hz Hx Hy E H1). congruence.
Qed.
Lemma hd_all mx x l : ok x -> Forall ok l -> Sorted (ord mx) l -> HdRel (ord mx) x l -> Forall (ord mx x) l.
Proof.
  intros Hx. induction l as [|b r IH]; intros Hok Hs Hh; [constructor|].
  inversion Hok as [|? ? Hb Hr]; subst. inversion Hs as [|? ? Hs' Hh']; subst. inversion Hh as [|? ? Hxb]; subst.
  constructor; [exact Hxb|]. apply IH; [exact Hr|exact Hs'|].
  destruct r as [|c r']; constructor. inversion Hh'; subst. inversion Hr; subst.
  eapply ord_trans with (y := b); eauto.
Qed.
Lemma sorted_strong mx l : Forall ok l -> Sorted (ord mx) l -> forall i j x y, i < j -> nth_error l i = Some x -> nth_error l j = Some y -> ord mx x y.
Proof.
  induction l as [|a r IH]; intros Hok Hs i j x y Hij Hi Hj; [destruct i; discriminate|].
  inversion Hok as [|? ? Ha Hr]; subst. inversion Hs as [|? ? Hs' Hh]; subst.
  destruct i as [|i]; simpl in Hi.
  - inversion Hi; subst a. destruct j as [|j]; [lia|]. simpl in Hj.
    pose proof (hd_all mx x r Ha Hr Hs' Hh) as Hall. rewrite Forall_forall in Hall. apply Hall. eapply nth_error_In; eauto.
  - destruct j as [|j]; [lia|]. simpl in Hj. apply (IH Hr Hs' i j x y); [lia|exact Hi|exact Hj].
Qed.

(* ---- the result of get_best_trials ------------------------------------------------------------ *)
Theorem best_length mx n ts : length (best_trials mx n ts) = Nat.min n (length ts).
Proof.
  unfold best_trials. rewrite firstn_length.
  assert (Hl : length (filter completed ts) + length (filter (fun t => negb (completed t)) ts) = length ts).
  { induction ts as [|t r IH]; simpl; [reflexivity|]. destruct (completed t); simpl; lia. }
  rewrite sort_length.
  destruct (Nat.ltb_spec (length (filter completed ts)) n); rewrite ?app_length, ?sort_length; lia.
Qed.

(* no running / invalid / failed trial is placed ahead of a completed one *)
Theorem best_completed_first mx n ts i j x y :
  i < j -> nth_error (best_trials mx n ts) i = Some x -> nth_error (best_trials mx n ts) j = Some y ->
  completed y = true -> completed x = true.
Proof.
  unfold best_trials. intros Hij Hi Hj Hy.
  set (S := sort mx (filter completed ts)) in *.
  assert (HS : forall t, In t S -> completed t = true).
  { intros t Ht. apply sort_in in Ht. apply filter_In in Ht. tauto. }
  apply nth_error_firstn_some in Hi as [Hi _]. apply nth_error_firstn_some in Hj as [Hj _].
  destruct (Nat.ltb (length S) n).
  - destruct (Nat.lt_ge_cases j (length S)) as [Hlt|Hge].
    + rewrite nth_error_app1 in Hi by lia. apply HS. eapply nth_error_In; eauto.
    + rewrite nth_error_app2 in Hj by lia. apply nth_error_In in Hj. apply filter_In in Hj.
      destruct Hj as [_ Hn]. rewrite Hy in Hn. discriminate.
  - apply HS. eapply nth_error_In; eauto.
Qed.

(* the completed trials returned are in the direction's order (ties in any order allowed by the statement; the
   tie order itself is pinned by best_symmetric and by the correspondence) *)
Theorem best_sorted mx n ts i j x y :
  Forall ok (filter completed ts) ->
  i < j -> nth_error (best_trials mx n ts) i = Some x -> nth_error (best_trials mx n ts) j = Some y ->
  completed x = true -> completed y = true -> ord mx x y.
Proof.
  unfold best_trials. intros Hok Hij Hi Hj Hx Hy.
  set (S := sort mx (filter completed ts)) in *.
  apply nth_error_firstn_some in Hi as [Hi _]. apply nth_error_firstn_some in Hj as [Hj _].
  assert (HSok : Forall ok S) by (apply sort_ok; exact Hok).
  assert (HSs : Sorted (ord mx) S) by (apply sort_sorted; exact Hok).
  assert (Hin : forall k z, nth_error (if Nat.ltb (length S) n then S ++ filter (fun t => negb (completed t)) ts else S) k = Some z ->
                            completed z = true -> nth_error S k = Some z).
  { intros k z Hk Hz. destruct (Nat.ltb (length S) n); [|exact Hk].
    destruct (Nat.lt_ge_cases k (length S)) as [Hlt|Hge]; [now rewrite nth_error_app1 in Hk by lia|].
    rewrite nth_error_app2 in Hk by lia. apply nth_error_In, filter_In in Hk. destruct Hk as [_ Hk]. rewrite Hz in Hk. discriminate. }
  eapply (sorted_strong mx S HSok HSs i j); eauto.
Qed.

(* every completed trial that is left out is not strictly better than any returned completed trial *)
Theorem best_left_out mx n ts t x :
  Forall ok (filter completed ts) ->
  In t ts -> completed t = true -> ~ In t (best_trials mx n ts) ->
  In x (best_trials mx n ts) -> completed x = true -> before mx t x = false.
Proof.
  unfold best_trials. intros Hok Ht Hc Hout Hx Hxc.
  set (S := sort mx (filter completed ts)) in *.
  assert (HSok : Forall ok S) by (apply sort_ok; exact Hok).
  assert (HSs : Sorted (ord mx) S) by (apply sort_sorted; exact Hok).
  assert (HtS : In t S) by (apply sort_in, filter_In; auto).
  apply In_nth_error in HtS as [k Hk].
  apply In_nth_error in Hx as [i Hi]. apply nth_error_firstn_some in Hi as [Hi Hin].
  assert (HiS : nth_error S i = Some x).
  { destruct (Nat.ltb (length S) n); [|exact Hi].
    destruct (Nat.lt_ge_cases i (length S)) as [Hlt|Hge]; [now rewrite nth_error_app1 in Hi by lia|].
    rewrite nth_error_app2 in Hi by lia. apply nth_error_In, filter_In in Hi. destruct Hi as [_ Hi]. rewrite Hxc in Hi. discriminate. }
  (* t sits at position k >= n in S, x at position i < n *)
  assert (Hkn : n <= k).
  { destruct (Nat.lt_ge_cases k n) as [Hlt|Hge]; [|exact Hge]. exfalso. apply Hout.
    eapply nth_error_In with (n := k). rewrite nth_error_firstn_lt by exact Hlt.
    destruct (Nat.ltb (length S) n); [|exact Hk]. rewrite nth_error_app1; [exact Hk|]. apply nth_error_Some. congruence. }
  assert (i < k) by lia.
  exact (sorted_strong mx S HSok HSs i k x t H HiS Hk).
Qed.
End Best.

(* ---- direction symmetry: maximising s = minimising -s, including the order of ties ------------- *)
Lemma flt_neg x y : flt (fneg x) (fneg y) = flt y x.
Proof.
  destruct x as [| |a|], y as [| |b|]; try reflexivity.
  destruct (flt (FFin b) (FFin a)) eqn:E.
  - apply flt_fin. apply flt_fin in E. now apply Qopp_lt_compat.
  - apply flt_fin_false. apply flt_fin_false in E. now apply Qopp_le_compat.
Qed.

Theorem sort_symmetric {T} (score : T -> fv) l :
  sort score true l = sort (fun t => fneg (score t)) false l.
Proof.
  induction l as [|x r IH]; simpl; [reflexivity|]. rewrite <- IH. clear IH.
  induction (sort score true r) as [|y r' IH]; simpl; [reflexivity|].
  unfold before. cbn [better_than]. rewrite flt_neg. destruct (flt (score x) (score y)); [now rewrite IH|reflexivity].
Qed.

Theorem best_symmetric {T} (completed : T -> bool) (score : T -> fv) n ts :
  best_trials completed score true n ts = best_trials completed (fun t => fneg (score t)) false n ts.
Proof. unfold best_trials. now rewrite sort_symmetric. Qed.
