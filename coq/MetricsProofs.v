(* Theorems about the metric bookkeeping model (C18) *)
From Coq Require Import List ZArith QArith Bool Lia Sorting.Sorted Sorting.Permutation.
Import ListNotations.
From KT Require Import Metrics Checkpoint.

Definition nonnan (a : fv) : Prop := is_nan a = false.

Lemma flt_fin x y : flt (FFin x) (FFin y) = true <-> (x < y)%Q.
Proof. simpl. rewrite Qlt_alt. destruct (x ?= y); split; congruence. Qed.
Lemma flt_fin_false x y : flt (FFin x) (FFin y) = false <-> (y <= x)%Q.
Proof.
  split; intro H.
  - apply Qnot_lt_le. intro L. apply flt_fin in L. congruence.
  - destruct (flt (FFin x) (FFin y)) eqn:E; [|reflexivity]. apply flt_fin in E. exfalso. eapply Qlt_not_le; eauto.
Qed.

Lemma flt_irrefl a : flt a a = false.
Proof. destruct a; try reflexivity. apply flt_fin_false. apply Qle_refl. Qed.

Ltac fin3 :=
  repeat match goal with
  | H : flt (FFin _) (FFin _) = true |- _ => apply flt_fin in H
  | H : flt (FFin _) (FFin _) = false |- _ => apply flt_fin_false in H
  | |- flt (FFin _) (FFin _) = true => apply flt_fin
  | |- flt (FFin _) (FFin _) = false => apply flt_fin_false
  end.

Ltac flt3 a b c tac :=
  unfold nonnan; intros Ha Hb Hc H1 H2;
  destruct a as [| |qa|], b as [| |qb|], c as [| |qc|];
  try discriminate Ha; try discriminate Hb; try discriminate Hc;
  first [ (fin3; tac) | reflexivity | discriminate H1 | discriminate H2 ].

Lemma flt_nb a b c : nonnan a -> nonnan b -> nonnan c -> flt a b = true -> flt c b = false -> flt c a = false.
Proof. flt3 a b c ltac:(eapply Qle_trans; [|eassumption]; apply Qlt_le_weak; assumption). Qed.
Lemma flt_nt a b c : nonnan a -> nonnan b -> nonnan c -> flt a b = true -> flt c b = false -> flt a c = true.
Proof. flt3 a b c ltac:(eapply Qlt_le_trans; eassumption). Qed.
(* the mirrored laws (for maximisation) *)
Lemma flt_nb' a b c : nonnan a -> nonnan b -> nonnan c -> flt b a = true -> flt b c = false -> flt a c = false.
Proof. flt3 a b c ltac:(eapply Qle_trans; [eassumption|]; apply Qlt_le_weak; assumption). Qed.
Lemma flt_nt' a b c : nonnan a -> nonnan b -> nonnan c -> flt b a = true -> flt b c = false -> flt c a = true.
Proof. flt3 a b c ltac:(eapply Qle_lt_trans; eassumption). Qed.

Lemma better_than_irrefl mx a : better_than mx a a = false.
Proof. destruct mx; apply flt_irrefl. Qed.
Lemma better_than_nb mx a b c : nonnan a -> nonnan b -> nonnan c ->
  better_than mx a b = true -> better_than mx c b = false -> better_than mx c a = false.
Proof. destruct mx; simpl; intros Ha Hb Hc H1 H2; [exact (flt_nb' a b c Ha Hb Hc H1 H2)|exact (flt_nb a b c Ha Hb Hc H1 H2)]. Qed.
Lemma better_than_nt mx a b c : nonnan a -> nonnan b -> nonnan c ->
  better_than mx a b = true -> better_than mx c b = false -> better_than mx a c = true.
Proof. destruct mx; simpl; intros Ha Hb Hc H1 H2; [exact (flt_nt' a b c Ha Hb Hc H1 H2)|exact (flt_nt a b c Ha Hb Hc H1 H2)]. Qed.

(* ---- MetricHistory.update -------------------------------------------------------------------- *)
Fixpoint olookup (s : Z) (o : obs) : option (list fv) :=
  match o with [] => None | (k, l) :: r => if Z.eqb k s then Some l else olookup s r end.

Theorem update_same o v s :
  olookup s (update o v s) = Some (match olookup s o with Some l => l ++ [v] | None => [v] end).
Proof.
  induction o as [|[k l] r IH]; simpl.
  - now rewrite Z.eqb_refl.
  - destruct (Z.eqb k s) eqn:E; simpl; rewrite E; [reflexivity|exact IH].
Qed.
Theorem update_other o v s s' : s' <> s -> olookup s' (update o v s) = olookup s' o.
Proof.
  intros Hne. induction o as [|[k l] r IH]; simpl.
  - destruct (Z.eqb s s') eqn:E; [apply Z.eqb_eq in E; congruence|reflexivity].
  - destruct (Z.eqb k s) eqn:E; simpl.
    + apply Z.eqb_eq in E. subst k. destruct (Z.eqb s s') eqn:E2; [apply Z.eqb_eq in E2; congruence|reflexivity].
    + destruct (Z.eqb k s'); [reflexivity|exact IH].
Qed.
(* steps stay distinct and keep their first-report order *)
Theorem update_steps o v s :
  map fst (update o v s) = if existsb (Z.eqb s) (map fst o) then map fst o else map fst o ++ [s].
Proof.
  induction o as [|[k l] r IH]; simpl; [reflexivity|].
  destruct (Z.eqb k s) eqn:E; simpl.
  - rewrite Z.eqb_sym, E. reflexivity.
  - rewrite Z.eqb_sym, E. simpl. rewrite IH. destruct (existsb (Z.eqb s) (map fst r)); reflexivity.
Qed.

(* ---- best value: nanmin / nanmax ------------------------------------------------------------- *)
Definition nb_step (mx : bool) (acc x : fv) : fv :=
  if is_nan x then acc else if is_nan acc then x else if (if mx then flt acc x else flt x acc) then x else acc.

Lemma better_than_asym mx a b : nonnan a -> nonnan b -> better_than mx a b = true -> better_than mx b a = false.
Proof. intros Ha Hb H. exact (better_than_nb mx a b b Ha Hb Hb H (better_than_irrefl mx b)). Qed.

Lemma nanbest_acc mx l : forall acc,
  nonnan acc ->
  nonnan (fold_left (nb_step mx) l acc) /\
  (fold_left (nb_step mx) l acc = acc \/ In (fold_left (nb_step mx) l acc) l) /\
  better_than mx acc (fold_left (nb_step mx) l acc) = false /\
  (forall y, In y l -> nonnan y -> better_than mx y (fold_left (nb_step mx) l acc) = false).
Proof.
  induction l as [|x r IH]; intros acc Hacc; cbn [fold_left].
  - split; [exact Hacc|]. split; [now left|]. split; [apply better_than_irrefl|]. intros y [].
  - unfold nb_step at 2 4 6 8 10. destruct (is_nan x) eqn:Ex.
    + destruct (IH acc Hacc) as (H1 & H2 & H3 & H4).
      split; [exact H1|]. split; [destruct H2 as [H2|H2]; [now left|right; now right]|]. split; [exact H3|].
      intros y [Hy|Hy] Hn; [subst; unfold nonnan in Hn; congruence|auto].
    + pose proof Hacc as Hacc'. unfold nonnan in Hacc'. rewrite Hacc'.
      assert (Hx : nonnan x) by exact Ex.
      destruct (if mx then flt acc x else flt x acc) eqn:Eb.
      * assert (Eb' : better_than mx x acc = true) by (destruct mx; exact Eb).
        destruct (IH x Hx) as (H1 & H2 & H3 & H4).
        set (b := fold_left (nb_step mx) r x) in *.
        split; [exact H1|]. split; [right; destruct H2 as [->|H2]; [now left|now right]|]. split.
        -- destruct (better_than mx acc b) eqn:E; [|reflexivity].
           assert (better_than mx x b = true).
           { apply (better_than_nt mx x acc b Hx Hacc H1 Eb'). apply better_than_asym; assumption. }
           congruence.
        -- intros y [Hy|Hy] Hn; [subst y; exact H3|auto].
      * assert (Eb' : better_than mx x acc = false) by (destruct mx; exact Eb).
        destruct (IH acc Hacc) as (H1 & H2 & H3 & H4).
        set (b := fold_left (nb_step mx) r acc) in *.
        split; [exact H1|]. split; [destruct H2 as [H2|H2]; [now left|right; now right]|]. split; [exact H3|].
        intros y [Hy|Hy] Hn; [subst y|auto].
        destruct (better_than mx x b) eqn:E; [|reflexivity].
        pose proof (better_than_nt mx x b acc Hx H1 Hacc E H3). congruence.
Qed.

Lemma nanbest_unfold mx l : nanbest mx l = fold_left (nb_step mx) l FNaN.
Proof. reflexivity. Qed.

Lemma nanbest_allnan mx l : (forall y, In y l -> is_nan y = true) -> nanbest mx l = FNaN.
Proof.
  rewrite nanbest_unfold. induction l as [|x r IH]; intros H; simpl; [reflexivity|].
  unfold nb_step at 2. rewrite (H x (or_introl eq_refl)). apply IH. intros y Hy. apply H. now right.
Qed.

(* np.nanmin/np.nanmax: the result ignores NaN entries; it is an element of the list that no other non-NaN element
   beats; it is NaN exactly when every entry is NaN *)
Theorem nanbest_spec mx l :
  (exists y, In y l /\ nonnan y) ->
  nonnan (nanbest mx l) /\ In (nanbest mx l) l /\ (forall y, In y l -> nonnan y -> better_than mx y (nanbest mx l) = false).
Proof.
  rewrite nanbest_unfold. induction l as [|x r IH]; intros (y & Hy & Hn); [destruct Hy|].
  cbn [fold_left]. unfold nb_step at 2 4 6. destruct (is_nan x) eqn:Ex.
  - destruct Hy as [Hy|Hy]; [subst; unfold nonnan in Hn; congruence|].
    destruct (IH (ex_intro _ y (conj Hy Hn))) as (H1 & H2 & H3).
    split; [exact H1|]. split; [now right|].
    intros z [Hz|Hz] Hzn; [subst; unfold nonnan in Hzn; congruence|auto].
  - cbn [is_nan]. destruct (nanbest_acc mx r x Ex) as (H1 & H2 & H3 & H4).
    split; [exact H1|]. split; [destruct H2 as [->|H2]; [now left|now right]|].
    intros z [Hz|Hz] Hzn; [subst z; exact H3|auto].
Qed.

Theorem best_value_none mx o : best_value mx o = None <-> o = [].
Proof. destruct o; simpl; split; congruence. Qed.

(* best_step: the first step (in insertion order) whose mean equals the best value *)
Theorem best_step_first mx o s :
  best_step mx o = Some s ->
  exists b pre l post, best_value mx o = Some b /\ o = pre ++ (s, l) :: post /\
     feq (fmean l) b = true /\ (forall p, In p pre -> feq (fmean (snd p)) b = false).
Proof.
  unfold best_step. destruct (best_value mx o) as [b|]; [|discriminate].
  destruct (find _ o) as [p|] eqn:Ef; [|discriminate]. intros H; inversion H; subst s; clear H.
  exists b. revert Ef. generalize o. clear o. induction o as [|q r IH]; simpl; [discriminate|].
  destruct (feq (fmean (snd q)) b) eqn:E; intros H.
  - inversion H; subst q. exists [], (snd p), r. destruct p; simpl in *. repeat split; auto. intros ? [].
  - destruct (IH H) as (pre & l & post & _ & Ho & Hl & Hpre).
    exists (q :: pre), l, post. subst r. repeat split; auto.
    intros p' [<-|Hp]; auto.
Qed.

(* ---- get_history: sorted by step, a permutation of the observations --------------------------- *)
Lemma ins_perm p l : Permutation (ins p l) (p :: l).
Proof.
  induction l as [|q r IH]; simpl; [reflexivity|].
  destruct (Z.leb (fst p) (fst q)); [reflexivity|].
  rewrite IH. apply perm_swap.
Qed.
Theorem history_perm o : Permutation (history o) o.
Proof. induction o as [|p r IH]; simpl; [constructor|]. rewrite ins_perm. now constructor. Qed.

Definition step_le (p q : Z * list fv) : Prop := (fst p <= fst q)%Z.
Lemma ins_sorted p l : Sorted step_le l -> Sorted step_le (ins p l).
Proof.
  induction l as [|q r IH]; simpl; intros Hs.
  - repeat constructor.
  - destruct (Z.leb (fst p) (fst q)) eqn:E.
    + constructor; [exact Hs|]. constructor. apply Z.leb_le. exact E.
    + inversion Hs as [|? ? Hs' Hh]; subst. constructor; [apply IH; exact Hs'|].
      apply Z.leb_gt in E.
      destruct r as [|q' r']; simpl.
      * constructor. unfold step_le. lia.
      * destruct (Z.leb (fst p) (fst q')); constructor; unfold step_le; try lia.
        inversion Hh; subst. assumption.
Qed.
Theorem history_sorted o : Sorted step_le (history o).
Proof. induction o as [|p r IH]; simpl; [constructor|]. apply ins_sorted. exact IH. Qed.

(* ---- History post-processing: the best epoch is the first epoch attaining the best objective --- *)
Definition epoch_values (o : objective) (eps : list mdict) : list (option fv) := map (obj_value o) eps.

Lemma best_epoch_from_hist o eps vs i bi bv :
  map (obj_value o) eps = map Some vs ->
  best_epoch_from o eps i bi bv = hist (better_than (obj_max o)) vs i bi bv.
Proof.
  revert vs i bi bv. induction eps as [|e r IH]; intros [|v vs] i bi bv H; simpl in *; try discriminate; [reflexivity|].
  inversion H as [[H1 H2]]. rewrite H1. destruct (better_than (obj_max o) v bv); apply IH; exact H2.
Qed.

Theorem hist_best_epoch_first_best o eps vs :
  eps <> [] ->
  map (obj_value o) eps = map Some vs ->
  Forall nonnan vs ->
  first_best (better_than (obj_max o)) vs (hist_best_epoch o eps).
Proof.
  intros Hne Hm Hf. destruct eps as [|e r]; [congruence|]. destruct vs as [|v vs]; [discriminate|].
  simpl in Hm. inversion Hm as [[H1 H2]]. unfold hist_best_epoch. rewrite H1.
  rewrite (best_epoch_from_hist o r vs 1%nat 0%nat v H2).
  apply (best_epoch_first_best (better_than (obj_max o)) nonnan
           (better_than_irrefl _) (better_than_nb _) (better_than_nt _) v vs Hf).
Qed.

(* ---- average_metrics_dicts ------------------------------------------------------------------- *)
Fixpoint clookup (n : mname) (c : list (mname * list fv)) : option (list fv) :=
  match c with [] => None | (k, l) :: r => if Pos.eqb k n then Some l else clookup n r end.

Lemma dadd_same n v c : clookup n (dadd n v c) = Some (match clookup n c with Some l => l ++ [v] | None => [v] end).
Proof.
  induction c as [|[k l] r IH]; simpl; [now rewrite Pos.eqb_refl|].
  destruct (Pos.eqb k n) eqn:E; simpl; rewrite E; [reflexivity|exact IH].
Qed.
Lemma dadd_other n m v c : m <> n -> clookup m (dadd n v c) = clookup m c.
Proof.
  intros Hne. induction c as [|[k l] r IH]; simpl.
  - destruct (Pos.eqb n m) eqn:E; [apply Pos.eqb_eq in E; congruence|reflexivity].
  - destruct (Pos.eqb k n) eqn:E; simpl.
    + apply Pos.eqb_eq in E. subst k. destruct (Pos.eqb n m) eqn:E2; [apply Pos.eqb_eq in E2; congruence|reflexivity].
    + destruct (Pos.eqb k m); [reflexivity|exact IH].
Qed.

Definition vals_of (n : mname) (d : mdict) : list fv :=
  flat_map (fun kv => if Pos.eqb (fst kv) n then [snd kv] else []) d.
Definition app_opt (o : option (list fv)) (l : list fv) : option (list fv) :=
  match l with [] => o | _ => Some (match o with Some l0 => l0 ++ l | None => l end) end.

Lemma collect_dict n d c :
  clookup n (fold_left (fun acc kv => dadd (fst kv) (snd kv) acc) d c) = app_opt (clookup n c) (vals_of n d).
Proof.
  revert c. induction d as [|[k v] r IH]; intros c; simpl; [reflexivity|].
  rewrite IH. unfold vals_of at 2. simpl. fold (vals_of n r).
  destruct (Pos.eqb k n) eqn:E.
  - apply Pos.eqb_eq in E. subst k. rewrite dadd_same. simpl.
    destruct (clookup n c), (vals_of n r); simpl; try reflexivity; now rewrite <- app_assoc.
  - simpl. rewrite dadd_other; [reflexivity|]. intro; subst. now rewrite Pos.eqb_refl in E.
Qed.
Lemma collect_all n ds c :
  clookup n (fold_left (fun acc d => fold_left (fun acc kv => dadd (fst kv) (snd kv) acc) d acc) ds c)
  = app_opt (clookup n c) (flat_map (vals_of n) ds).
Proof.
  revert c. induction ds as [|d r IH]; intros c; simpl; [reflexivity|].
  rewrite IH, collect_dict.
  destruct (clookup n c), (vals_of n d), (flat_map (vals_of n) r); simpl; try reflexivity;
    rewrite <- ?app_assoc, ?app_nil_r; reflexivity.
Qed.

Lemma dlookup_map n c : dlookup n (map (fun kl => (fst kl, fmean (snd kl))) c) = option_map fmean (clookup n c).
Proof. induction c as [|[k l] r IH]; simpl; [reflexivity|]. destruct (Pos.eqb k n); [reflexivity|exact IH]. Qed.

(* the averaged dict maps each metric name to the mean of the values reported under that name *)
Theorem average_spec n ds :
  dlookup n (average ds) = match flat_map (vals_of n) ds with [] => None | l => Some (fmean l) end.
Proof.
  unfold average, collect. rewrite dlookup_map, collect_all. simpl.
  destruct (flat_map (vals_of n) ds); reflexivity.
Qed.

(* a dict without duplicate keys (every Python dict) holding the key *)
Lemma vals_of_single n d v : NoDup (map fst d) -> dlookup n d = Some v -> vals_of n d = [v].
Proof.
  induction d as [|[k w] r IH]; simpl; intros Hnd H; [discriminate|].
  inversion Hnd as [|? ? Hk Hr]; subst. unfold vals_of. simpl. fold (vals_of n r).
  destruct (Pos.eqb k n) eqn:E.
  - inversion H; subst. apply Pos.eqb_eq in E. subst k.
    assert (vals_of n r = []) as ->; [|reflexivity].
    clear -Hk. induction r as [|[k' w'] r IH]; [reflexivity|]. unfold vals_of. simpl. fold (vals_of n r).
    destruct (Pos.eqb k' n) eqn:E'; [apply Pos.eqb_eq in E'; subst; exfalso; apply Hk; now left|].
    apply IH. intro; apply Hk; now right.
  - simpl. apply IH; assumption.
Qed.

(* the objective of a list of per-execution results is the mean of the per-execution objectives *)
Theorem convert_list_objective o rs vs :
  Forall2 (fun r v => NoDup (map fst (convert o r)) /\ dlookup (obj_name o) (convert o r) = Some v) rs vs ->
  rs <> [] ->
  dlookup (obj_name o) (convert o (RList rs)) = Some (fmean vs).
Proof.
  intros HF Hne. simpl. rewrite average_spec.
  assert (flat_map (vals_of (obj_name o)) (map (convert o) rs) = vs) as ->.
  { clear Hne. induction HF as [|r v rs' vs' [Hnd Hl] _ IH]; simpl; [reflexivity|].
    rewrite (vals_of_single _ _ _ Hnd Hl). simpl. f_equal. exact IH. }
  destruct vs; [|reflexivity]. inversion HF; subst; congruence.
Qed.

Theorem convert_float o x : dlookup (obj_name o) (convert o (RFloat x)) = Some x.
Proof. simpl. now rewrite Pos.eqb_refl. Qed.
Theorem convert_dict o d : convert o (RDict d) = d.
Proof. reflexivity. Qed.

(* a History is converted to the logs of its best epoch, which carry the objective value of that epoch *)
Theorem convert_hist_objective o eps e :
  nth_error eps (hist_best_epoch o eps) = Some e ->
  dlookup (obj_name o) (convert o (RHist eps)) =
    match dlookup (obj_name o) e with Some v => Some v | None => obj_value o e end.
Proof.
  intros Hn. simpl. rewrite (nth_error_nth _ _ _ Hn). unfold with_obj.
  destruct (dlookup (obj_name o) e) eqn:E1; [exact E1|].
  destruct (obj_value o e) eqn:E2; [|exact E1].
  clear -E1. induction e as [|[k w] r IH]; simpl in *; [now rewrite Pos.eqb_refl|].
  destruct (Pos.eqb k (obj_name o)); [discriminate|]. apply IH. exact E1.
Qed.

(* multi-objective value: sum of minimised metrics minus sum of maximised ones (exact layer, finite values) *)
Fixpoint multi_sum (parts : list (mname * bool)) (logs : list (mname * Q)) : Q :=
  match logs with
  | [] => 0
  | (k, v) :: r => match plookup k parts with
                   | None => multi_sum parts r
                   | Some false => v + multi_sum parts r
                   | Some true => - v + multi_sum parts r
                   end
  end.
Lemma multi_fold parts logs acc :
  exists q, fold_left (fun a kv => match plookup (fst kv) parts with
                                     | None => a | Some false => fadd a (snd kv) | Some true => fadd a (fneg (snd kv)) end)
              (map (fun kv => (fst kv, FFin (snd kv))) logs) (FFin acc) = FFin q /\ q == acc + multi_sum parts logs.
Proof.
  revert acc. induction logs as [|[k v] r IH]; intros acc; simpl.
  - exists acc. split; [reflexivity|ring].
  - destruct (plookup k parts) as [[|]|]; simpl.
    + destruct (IH (acc + - v)) as (q & Hq & He). exists q. split; [exact Hq|]. rewrite He. ring.
    + destruct (IH (acc + v)) as (q & Hq & He). exists q. split; [exact Hq|]. rewrite He. ring.
    + destruct (IH acc) as (q & Hq & He). exists q. split; [exact Hq|]. rewrite He. reflexivity.
Qed.
Theorem multi_objective_value self parts logs :
  exists q, obj_value (OMulti self parts) (map (fun kv => (fst kv, FFin (snd kv))) logs) = Some (FFin q)
            /\ q == multi_sum parts logs.
Proof.
  destruct (multi_fold parts logs 0) as (q & Hq & He). exists q. split; [simpl; now rewrite Hq|].
  rewrite He. ring.
Qed.

(* get_best_step of a list = floor of the mean of the per-execution best epochs *)
Theorem best_step_list o rs :
  result_best_step o (RList rs) = (fold_left Nat.add (map (result_best_step o) rs) 0 / length rs)%nat.
Proof. reflexivity. Qed.
