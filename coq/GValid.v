(* C05 for the grid oracle: every combination of the enumeration - hence the values of every trial the grid model ever holds
   (GInv.G_vals) - is a valid assignment: a value for exactly the active entries, each taken from [default] + values *)
From stdpp Require Import gmap list.
From KT Require Import Lifecycle LInv G3 GR GQ GT2.

Definition valid_for (sp : list hp) (v : vals) : Prop :=
  ∀ h, h ∈ sp → if active v h then ∃ x, v !! hname h = Some x ∧ x ∈ hall h else v !! hname h = None.

Lemma combos_valid sp : ∀ pre dn, wo pre sp → (∀ n, n ∈ names sp → dn !! n = None) →
  ∀ v, v ∈ combos sp dn → valid_for sp v.
Proof.
  induction sp as [|h rest IH]; intros pre dn Hwo Hdn v Hv k Hk.
  { by apply elem_of_nil in Hk. }
  pose proof (wo_names _ _ Hwo) as [Hpre Hnd].
  destruct Hwo as (Hpn & Hhn & Hne & Hndh & Hwo).
  pose proof (wo_names _ _ Hwo) as [Hpre' Hnd'].
  assert (Hnr : hname h ∉ names rest).
  { intros Hin. apply (Hpre' _ Hin). by left. }
  cbn in Hv.
  (* activity of h itself is decided by names of pre, which no combination of the rest touches *)
  assert (Hact : ∀ dn', (∀ n, n ∈ pre → dn' !! n = dn !! n) → v ∈ combos rest dn' → active v h = active dn h).
  { intros dn' Hag Hv'. apply active_agree. intros n Hn.
    assert (Hnp : n ∈ pre) by (by apply Hpn).
    rewrite (combos_other _ _ _ Hv'); [by apply Hag|].
    intros Hin. apply (Hpre' _ Hin). by right. }
  apply elem_of_cons in Hk as [Heq|Hk]; [subst k|].
  - destruct (active dn h) eqn:Ea.
    + apply elem_of_list_In, in_flat_map in Hv as (x & Hx & Hv). apply elem_of_list_In in Hv, Hx.
      rewrite (Hact (<[hname h:=x]> dn)); [|intros n Hn; rewrite lookup_insert_ne; [done|by intros <-]|done].
      exists x. split; [|done].
      rewrite (combos_other _ _ _ Hv _ Hnr). by rewrite lookup_insert.
    + rewrite (Hact dn); [|done|done].
      rewrite (combos_other _ _ _ Hv _ Hnr). apply Hdn. by left.
  - destruct (active dn h) eqn:Ea.
    + apply elem_of_list_In, in_flat_map in Hv as (x & Hx & Hv). apply elem_of_list_In in Hv.
      eapply (IH (hname h :: pre) (<[hname h:=x]> dn)); [done| |done|done].
      intros n Hn. rewrite lookup_insert_ne; [|by intros <-]. apply Hdn. by right.
    + eapply (IH (hname h :: pre) dn); [done| |done|done].
      intros n Hn. apply Hdn. by right.
Qed.

(* names that are not in the space carry no value in a combination *)
Lemma combos_only_space sp v n : v ∈ combos sp ∅ → n ∉ names sp → v !! n = None.
Proof. intros Hv Hn. by rewrite (combos_other _ _ _ Hv _ Hn). Qed.

Section run.
Variable sp : list hp.
Hypothesis Hwo : wo [] sp.
Notation V := (gmap name value).
Notation ost := (@ostate gstate V unit).

(* in a state satisfying the grid invariant - every state of every run, C09_invariant(_reload) - each trial's values are valid *)
Theorem grid_trials_valid (s : ost) : GInv sp s → ∀ id, id < length (trials s) →
  valid_for sp (val (trials s) id) ∧ ∀ n, n ∉ names sp → val (trials s) id !! n = None.
Proof using Hwo.
  intros HG id Hid. pose proof (G_vals sp _ _ _ _ _ HG id Hid) as Hin. split.
  - eapply combos_valid; [exact Hwo| |exact Hin]. intros n _. apply lookup_empty.
  - intros n Hn. by apply (combos_only_space sp).
Qed.
End run.
