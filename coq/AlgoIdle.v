(* C11: the three modelled search algorithms answer IDLE only when told that trials are in flight, and what their own
   STOPPED means. *)
From stdpp Require Import gmap list.
From Coq Require Import ZArith.
From KT Require Import Lifecycle LIdle HB G3 GR Space Discover Rand.

Theorem hpopulate_idle {V} (h : hcfg) (mk : hinfo → V) vdef : idle_only_if_busy (hpopulate h mk vdef).
Proof.
  intros a ts busy id. unfold hpopulate.
  destruct (HB.scan h ts (List.filter (incomplete h) (brackets a)) 0); [done|done|].
  destruct (Nat.eqb (cur_bracket a) 0 && match iterations h with Some n => Nat.eqb (S (cur_iter a)) n | None => false end).
  - destruct busy; done.
  - destruct (cur_bracket a); done.
Qed.
(* Hyperband's own STOPPED: nothing in flight, the sweep is at bracket 0 of the last iteration, and no open bracket can
   take a new trial or promote one *)
Theorem hpopulate_stopped {V} (h : hcfg) (mk : hinfo → V) vdef a (ts : list (trial V Z)) busy id :
  snd (fst (hpopulate h mk vdef a ts busy id)) = STOPPED →
  busy = false ∧ cur_bracket a = 0 ∧ (∃ n, iterations h = Some n ∧ S (cur_iter a) = n) ∧
  HB.scan h ts (List.filter (incomplete h) (brackets a)) 0 = CNone.
Proof.
  unfold hpopulate. destruct (HB.scan h ts (List.filter (incomplete h) (brackets a)) 0) eqn:Es; [done|done|].
  destruct (Nat.eqb (cur_bracket a) 0) eqn:Eb.
  - destruct (iterations h) as [n|] eqn:Ei.
    + destruct (Nat.eqb (S (cur_iter a)) n) eqn:En.
      * rewrite andb_true_l. destruct busy; [done|]. intros _. apply Nat.eqb_eq in Eb, En. eauto 10.
      * rewrite andb_false_r. destruct (cur_bracket a); done.
    + rewrite andb_false_r. destruct (cur_bracket a); done.
  - rewrite andb_false_l. destruct (cur_bracket a); done.
Qed.

Theorem gpopulate_idle sp : idle_only_if_busy (gpopulate sp).
Proof.
  intros a ts busy id. unfold gpopulate. destruct ts; [cbn; done|].
  destruct (GR.scan sp _ (ordered a) (pending a)); cbn; try done. destruct busy; cbn; done.
Qed.

Theorem rpopulate_idle samp draw mc : idle_only_if_busy (rpopulate samp draw mc).
Proof.
  intros a ts busy id. unfold rpopulate.
  destruct (random_values samp draw mc (S (S mc)) (s_space (a_osp a)) (a_tried a) (a_seed a) 0) as [[v|] seed']; [|cbn; done].
  destruct (ensure_go draw _ _ v (a_k a)). cbn. done.
Qed.
(* random search's own STOPPED: the sampling loop gave up (every pass hit a configuration already tried) *)
Theorem rpopulate_stopped samp draw mc a ts busy id :
  snd (fst (rpopulate samp draw mc a ts busy id)) = STOPPED →
  ∃ seed', random_values samp draw mc (S (S mc)) (s_space (a_osp a)) (a_tried a) (a_seed a) 0 = (None, seed').
Proof.
  unfold rpopulate. destruct (random_values samp draw mc (S (S mc)) (s_space (a_osp a)) (a_tried a) (a_seed a) 0) as [[v|] seed']; [|eauto].
  destruct (ensure_go draw _ _ v (a_k a)). cbn. done.
Qed.
